#include "datastruct/timerqueue.c"
size_t verif_ptrheap_n(struct ptrheap *); void * verif_ptrheap_at(struct ptrheap *, size_t);
size_t verif_tq_n(struct timerqueue * Q){ return (verif_ptrheap_n(Q->H)); }
/* i-th record in heap-array order */
void
verif_tq_at(struct timerqueue * Q, size_t i, struct timeval * tv, void ** ptr, size_t * rc)
{
	struct timerrec * r = verif_ptrheap_at(Q->H, i);
	*tv = r->tv; *ptr = r->ptr; *rc = r->rc;
}
