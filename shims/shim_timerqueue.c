#include "datastruct/timerqueue.c"
size_t verif_ptrheap_n(struct ptrheap *); void * verif_ptrheap_at(struct ptrheap *, size_t);
size_t verif_tq_n(struct timerqueue * Q){ return (verif_ptrheap_n(Q->H)); }
/* i-th record in heap-array order */
void
verif_tq_at(struct timerqueue * Q, size_t i, struct timeval * tv, void ** ptr, size_t * rc)
{
	struct timerrec * r = verif_ptrheap_at(Q->H, i);
	*tv = r->tv; *ptr = r->ptr; *rc = r->rc;
}
/* C13: handle (= record address) of the i-th record in heap-array order */
void * verif_tq_cookie_at(struct timerqueue * Q, size_t i){ return (verif_ptrheap_at(Q->H, i)); }
/* C13: append a record at the end of the heap array without sifting (restores a snapshot); returns the handle */
int verif_ptrheap_place(struct ptrheap *, void *);
void *
verif_tq_place(struct timerqueue * Q, const struct timeval * tv, void * ptr)
{
	struct timerrec * r = malloc(sizeof(struct timerrec));
	if (r == NULL) return (NULL);
	r->tv = *tv; r->ptr = ptr; r->rc = verif_ptrheap_n(Q->H);
	if (verif_ptrheap_place(Q->H, r)) { free(r); return (NULL); }
	return (r);
}
