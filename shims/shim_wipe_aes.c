/*
 * crypto/crypto_aes.c compiled from the working tree, plus an accessor that
 * forgets the cached hardware-acceleration decision so that one process can
 * drive both the OpenSSL and the AES-NI code path (property C20).
 */
#include "crypto/crypto_aes.c"

void verif_wipe_aes_reset(void);
void
verif_wipe_aes_reset(void)
{
#ifdef HWACCEL
	hwaccel = HW_UNSET;
#endif
}
