/*
 * crypto/crypto_aesctr.c compiled from the working tree, plus accessors: forget
 * the cached hardware-acceleration decision; size of the stream object
 * (property C20).
 */
#include "crypto/crypto_aesctr.c"

void verif_wipe_aesctr_reset(void);
size_t verif_wipe_aesctr_size(void);
void
verif_wipe_aesctr_reset(void)
{
#ifdef HWACCEL
	hwaccel = HW_UNSET;
#endif
}
size_t
verif_wipe_aesctr_size(void)
{
	return sizeof(struct crypto_aesctr);
}
